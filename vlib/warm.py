"""Warm the numba caches for the current /repo sources (called by setup.sh; best effort).

For every registered property whose module defines warm(), the single-writer 'golden' cache directory
(.nbcache/<source hash>/<ID>-golden) is populated by one process; different properties are warmed in parallel
(they write to different directories).  The checks copy the golden directory into their own process-role directories."""
import importlib
import os
import subprocess
import sys
import time

from . import env

key = env.setup(prune=True)


def main():
    t0 = time.time()
    reg = os.path.join(env.VERIF, 'props', 'REGISTERED')
    ids = open(reg).read().split() if os.path.exists(reg) else []
    pdir = os.path.join(env.VERIF, 'props')
    jobs = []
    for f in sorted(os.listdir(pdir)):
        if not (f.startswith('c') and f.endswith('.py') and f[1:3].isdigit()):
            continue
        pid = 'C' + f[1:3]
        if ids and pid not in ids:
            continue
        code = ('import importlib, sys\n'
                'from vlib import env, runner\n'
                'key = env.setup()\n'
                'm = importlib.import_module("props.%s")\n'
                'sys.exit(0 if (not hasattr(m, "warm")) or runner._prepare_golden(m, "%s", key) else 1)\n' % (f[:-3], f[:-3]))
        e = dict(os.environ, VERIF_CACHE_ROLE='%s-setup' % pid, PYTHONPATH=env.VERIF + os.pathsep + os.environ.get('PYTHONPATH', ''))
        jobs.append((pid, subprocess.Popen([env.PY, '-c', code], cwd=env.VERIF, env=e, stdin=subprocess.DEVNULL,
                                           stdout=subprocess.DEVNULL, stderr=subprocess.DEVNULL)))
        while sum(1 for _, p in jobs if p.poll() is None) >= 8:
            time.sleep(0.5)
    bad = [pid for pid, p in jobs if p.wait() != 0]
    print('warm: %d properties in %.0fs%s' % (len(jobs), time.time() - t0, (' (failed: %s)' % ' '.join(bad)) if bad else ''))


if __name__ == '__main__':
    main()
