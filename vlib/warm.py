"""Warm the numba on-disk cache for the current /repo sources (called by setup.sh; best effort)."""
import importlib
import os
import sys
import time

from . import env

env.setup(prune=True)


def main():
    t0 = time.time()
    pdir = os.path.join(env.VERIF, 'props')
    for f in sorted(os.listdir(pdir)):
        if f.startswith('c') and f.endswith('.py'):
            try:
                m = importlib.import_module('props.' + f[:-3])
                if hasattr(m, 'warm'):
                    m.warm()
            except Exception as e:  # noqa
                print('warm: %s: %s' % (f, e))
    print('warm: %.1fs' % (time.time() - t0))


if __name__ == '__main__':
    main()
